// mirfacts: rustc_private driver that dumps the resolved program (MIR, types, resolved
// callees, evaluated constants, ADTs, impls) of the crate named by MIRFACTS_CRATE
// (default "chrono") as one JSON document to the file named by MIRFACTS_OUT.
// Other crates are compiled untouched.
#![feature(rustc_private)]
#![allow(unused)]

extern crate rustc_abi;
extern crate rustc_driver;
extern crate rustc_hir;
extern crate rustc_interface;
extern crate rustc_middle;
extern crate rustc_session;
extern crate rustc_span;

mod json;
use json::J;

use rustc_abi::{FieldIdx, Size, TagEncoding, VariantIdx, Variants};
use rustc_driver::Compilation;
use rustc_hir::def::DefKind;
use rustc_hir::def_id::{DefId, LocalDefId, LOCAL_CRATE};
use rustc_middle::mir::interpret::{AllocId, GlobalAlloc, Scalar};
use rustc_middle::mir::{
    self, AggregateKind, BasicBlock, Body, Const, ConstValue, Operand, Place, ProjectionElem,
    Rvalue, StatementKind, TerminatorKind,
};
use rustc_middle::ty::layout::{LayoutCx, LayoutOf, TyAndLayout};
use rustc_middle::ty::print::with_no_trimmed_paths;
use rustc_middle::ty::{self, GenericArgsRef, Instance, Ty, TyCtxt, TypeVisitableExt, TypingEnv};
use rustc_span::Span;
use std::collections::{BTreeMap, HashMap};

struct Cb;

impl rustc_driver::Callbacks for Cb {
    fn after_analysis<'tcx>(
        &mut self,
        _c: &rustc_interface::interface::Compiler,
        tcx: TyCtxt<'tcx>,
    ) -> Compilation {
        let want = std::env::var("MIRFACTS_CRATE").unwrap_or_else(|_| "chrono".to_string());
        if tcx.crate_name(LOCAL_CRATE).as_str() == want {
            if let Ok(out) = std::env::var("MIRFACTS_OUT") {
                let mut d = Dump::new(tcx);
                let doc = d.run();
                let mut s = String::with_capacity(64 << 20);
                doc.write(&mut s);
                std::fs::write(&out, s).expect("write facts");
            }
        }
        Compilation::Continue
    }
}

fn main() {
    let mut args: Vec<String> = std::env::args().collect();
    // RUSTC_WORKSPACE_WRAPPER passes the real rustc path as argv[1]
    if args.len() > 1 && (args[1].ends_with("rustc") || args[1].contains("/rustc")) {
        args.remove(1);
    }
    rustc_driver::run_compiler(&args, &mut Cb);
}

struct Mem<'tcx> {
    bytes: Vec<u8>,
    ptrs: BTreeMap<u64, AllocId>,
    _m: std::marker::PhantomData<&'tcx ()>,
}

struct Dump<'tcx> {
    tcx: TyCtxt<'tcx>,
    tys: Vec<J>,
    ty_map: HashMap<Ty<'tcx>, usize>,
    cur_env: TypingEnv<'tcx>,
    cur_def: Option<DefId>,
    decode_budget: usize,
}

fn o(v: Vec<(&str, J)>) -> J {
    J::O(v.into_iter().map(|(k, v)| (k.to_string(), v)).collect())
}
fn s<T: Into<String>>(x: T) -> J {
    J::S(x.into())
}

impl<'tcx> Dump<'tcx> {
    fn new(tcx: TyCtxt<'tcx>) -> Self {
        Dump {
            tcx,
            tys: vec![],
            ty_map: HashMap::new(),
            cur_env: TypingEnv::fully_monomorphized(),
            cur_def: None,
            decode_budget: 0,
        }
    }

    fn path(&self, did: DefId) -> String {
        with_no_trimmed_paths!(self.tcx.def_path_str(did))
    }

    fn ty_str(&self, ty: Ty<'tcx>) -> String {
        with_no_trimmed_paths!(ty.to_string())
    }

    fn ty_id(&mut self, ty: Ty<'tcx>) -> usize {
        if let Some(&i) = self.ty_map.get(&ty) {
            return i;
        }
        let i = self.tys.len();
        self.tys.push(J::Null);
        self.ty_map.insert(ty, i);
        let mut v: Vec<(&str, J)> = vec![("s", s(self.ty_str(ty)))];
        match ty.kind() {
            ty::Bool => v.push(("k", s("bool"))),
            ty::Char => v.push(("k", s("char"))),
            ty::Int(it) => {
                v.push(("k", s("int")));
                v.push(("bits", J::I(it.bit_width().unwrap_or(64) as i128)));
            }
            ty::Uint(ut) => {
                v.push(("k", s("uint")));
                v.push(("bits", J::I(ut.bit_width().unwrap_or(64) as i128)));
            }
            ty::Float(_) => v.push(("k", s("float"))),
            ty::Adt(def, args) => {
                v.push(("k", s("adt")));
                v.push(("adt", s(self.path(def.did()))));
                let a: Vec<J> = args.types().map(|t| J::I(self.ty_id(t) as i128)).collect();
                v.push(("args", J::A(a)));
            }
            ty::Ref(_, inner, m) => {
                v.push(("k", s("ref")));
                v.push(("inner", J::I(self.ty_id(*inner) as i128)));
                v.push(("mut", J::B(m.is_mut())));
            }
            ty::RawPtr(inner, m) => {
                v.push(("k", s("ptr")));
                v.push(("inner", J::I(self.ty_id(*inner) as i128)));
                v.push(("mut", J::B(m.is_mut())));
            }
            ty::Tuple(list) => {
                v.push(("k", s("tuple")));
                let a: Vec<J> = list.iter().map(|t| J::I(self.ty_id(t) as i128)).collect();
                v.push(("elems", J::A(a)));
            }
            ty::Array(elem, len) => {
                v.push(("k", s("array")));
                v.push(("elem", J::I(self.ty_id(*elem) as i128)));
                match len.try_to_target_usize(self.tcx) {
                    Some(n) => v.push(("len", J::I(n as i128))),
                    None => v.push(("len", J::Null)),
                }
            }
            ty::Slice(elem) => {
                v.push(("k", s("slice")));
                v.push(("elem", J::I(self.ty_id(*elem) as i128)));
            }
            ty::Str => v.push(("k", s("str"))),
            ty::FnDef(did, args) => {
                v.push(("k", s("fndef")));
                v.push(("def", s(self.path(*did))));
            }
            ty::Closure(did, _) => {
                v.push(("k", s("closure")));
                v.push(("def", s(self.path(*did))));
            }
            ty::Param(p) => {
                v.push(("k", s("param")));
                v.push(("name", s(p.name.as_str())));
            }
            ty::Never => v.push(("k", s("never"))),
            ty::FnPtr(..) => v.push(("k", s("fnptr"))),
            ty::Dynamic(..) => v.push(("k", s("dyn"))),
            ty::Alias(..) => v.push(("k", s("alias"))),
            _ => v.push(("k", s("other"))),
        }
        self.tys[i] = o(v);
        i
    }

    fn loc(&self, span: Span) -> (String, usize) {
        let sm = self.tcx.sess.source_map();
        let span = span.source_callsite();
        let p = sm.lookup_char_pos(span.lo());
        let name = match &p.file.name {
            rustc_span::FileName::Real(r) => format!("{}", r.local_path().map(|p| p.display().to_string()).unwrap_or_else(|| format!("{:?}", r))),
            other => format!("{:?}", other),
        };
        (name, p.line)
    }

    fn place(&mut self, p: &Place<'tcx>) -> J {
        let mut proj = vec![];
        for e in p.projection.iter() {
            proj.push(match e {
                ProjectionElem::Deref => s("*"),
                ProjectionElem::Field(f, ty) => J::A(vec![s("f"), J::I(f.as_usize() as i128), J::I(self.ty_id(ty) as i128)]),
                ProjectionElem::Downcast(name, v) => J::A(vec![
                    s("d"),
                    J::I(v.as_usize() as i128),
                    match name {
                        Some(n) => s(n.as_str()),
                        None => J::Null,
                    },
                ]),
                ProjectionElem::Index(l) => J::A(vec![s("i"), J::I(l.as_usize() as i128)]),
                ProjectionElem::ConstantIndex { offset, min_length, from_end } => {
                    J::A(vec![s("ci"), J::I(offset as i128), J::I(min_length as i128), J::B(from_end)])
                }
                ProjectionElem::Subslice { from, to, from_end } => {
                    J::A(vec![s("sub"), J::I(from as i128), J::I(to as i128), J::B(from_end)])
                }
                other => J::A(vec![s("other"), s(format!("{:?}", other))]),
            });
        }
        o(vec![("l", J::I(p.local.as_usize() as i128)), ("p", J::A(proj))])
    }

    fn scalar_int_json(&self, bits: u128, size: u64, ty: Ty<'tcx>) -> J {
        match ty.kind() {
            ty::Int(_) => {
                let sh = 128 - size * 8;
                let v = ((bits << sh) as i128) >> sh;
                J::I(v)
            }
            ty::Bool => J::B(bits != 0),
            ty::Char => {
                let mut v = vec![("char", J::I(bits as i128))];
                o(v)
            }
            _ => J::I(bits as i128),
        }
    }

    fn mem_of(&self, id: AllocId) -> Option<Mem<'tcx>> {
        match self.tcx.try_get_global_alloc(id)? {
            GlobalAlloc::Memory(a) => {
                let a = a.inner();
                let bytes = a.inspect_with_uninit_and_ptr_outside_interpreter(0..a.len()).to_vec();
                let mut ptrs = BTreeMap::new();
                for (off, prov) in a.provenance().ptrs().iter() {
                    ptrs.insert(off.bytes(), prov.alloc_id());
                }
                Some(Mem { bytes, ptrs, _m: std::marker::PhantomData })
            }
            _ => None,
        }
    }

    fn read_uint(&self, mem: &Mem<'tcx>, off: u64, size: u64) -> Option<u128> {
        if off + size > mem.bytes.len() as u64 || size > 16 {
            return None;
        }
        let mut v: u128 = 0;
        for i in (0..size).rev() {
            v = (v << 8) | mem.bytes[(off + i) as usize] as u128;
        }
        Some(v)
    }

    // decode the value of type `ty` stored at mem[off..]
    fn decode(&mut self, mem: &Mem<'tcx>, off: u64, ty: Ty<'tcx>, depth: usize) -> J {
        if depth > 12 || self.decode_budget == 0 {
            return o(vec![("undecoded", s("budget"))]);
        }
        self.decode_budget -= 1;
        let tcx = self.tcx;
        let env = TypingEnv::fully_monomorphized();
        let ty = tcx.normalize_erasing_regions(env, ty::Unnormalized::new_wip(ty));
        let layout = match tcx.layout_of(env.as_query_input(ty)) {
            Ok(l) => l,
            Err(_) => return o(vec![("undecoded", s("layout"))]),
        };
        let size = layout.size.bytes();
        match ty.kind() {
            ty::Pat(inner, _) => self.decode(mem, off, *inner, depth + 1),
            ty::Int(_) | ty::Uint(_) | ty::Bool | ty::Char => match self.read_uint(mem, off, size) {
                Some(b) => self.scalar_int_json(b, size, ty),
                None => J::Null,
            },
            ty::Float(_) => match self.read_uint(mem, off, size) {
                Some(b) => o(vec![("floatbits", J::I(b as i128))]),
                None => J::Null,
            },
            ty::Ref(_, inner, _) | ty::RawPtr(inner, _) => {
                let target = mem.ptrs.get(&off).copied();
                let addend = self.read_uint(mem, off, 8).unwrap_or(0) as u64;
                let Some(aid) = target else {
                    return o(vec![("ptr_int", J::I(addend as i128))]);
                };
                match tcx.try_get_global_alloc(aid) {
                    Some(GlobalAlloc::Memory(_)) => {
                        let m2 = self.mem_of(aid).unwrap();
                        match inner.kind() {
                            ty::Str => {
                                let len = self.read_uint(mem, off + 8, 8).unwrap_or(0) as u64;
                                let end = (addend + len).min(m2.bytes.len() as u64);
                                let b = &m2.bytes[addend as usize..end as usize];
                                s(String::from_utf8_lossy(b).to_string())
                            }
                            ty::Slice(elem) => {
                                let len = self.read_uint(mem, off + 8, 8).unwrap_or(0) as u64;
                                let el = match tcx.layout_of(env.as_query_input(*elem)) {
                                    Ok(l) => l.size.bytes(),
                                    Err(_) => return o(vec![("undecoded", s("layout"))]),
                                };
                                let mut v = vec![];
                                for i in 0..len {
                                    v.push(self.decode(&m2, addend + i * el, *elem, depth + 1));
                                }
                                J::A(v)
                            }
                            _ => self.decode(&m2, addend, *inner, depth + 1),
                        }
                    }
                    Some(GlobalAlloc::Static(did)) => {
                        // follow the pointer into the static's own allocation (nested statics of slices etc.)
                        let init = std::panic::catch_unwind(std::panic::AssertUnwindSafe(|| tcx.eval_static_initializer(did).ok()));
                        if let Ok(Some(a)) = init {
                            let a = a.inner();
                            let bytes = a.inspect_with_uninit_and_ptr_outside_interpreter(0..a.len()).to_vec();
                            let mut ptrs = BTreeMap::new();
                            for (off, prov) in a.provenance().ptrs().iter() {
                                ptrs.insert(off.bytes(), prov.alloc_id());
                            }
                            let m2 = Mem { bytes, ptrs, _m: std::marker::PhantomData };
                            match inner.kind() {
                                ty::Str => {
                                    let len = self.read_uint(mem, off + 8, 8).unwrap_or(0) as u64;
                                    let end = (addend + len).min(m2.bytes.len() as u64);
                                    let b = &m2.bytes[addend as usize..end as usize];
                                    s(String::from_utf8_lossy(b).to_string())
                                }
                                ty::Slice(elem) => {
                                    let len = self.read_uint(mem, off + 8, 8).unwrap_or(0) as u64;
                                    let el = match tcx.layout_of(env.as_query_input(*elem)) {
                                        Ok(l) => l.size.bytes(),
                                        Err(_) => return o(vec![("undecoded", s("layout"))]),
                                    };
                                    let mut v = vec![];
                                    for i in 0..len {
                                        v.push(self.decode(&m2, addend + i * el, *elem, depth + 1));
                                    }
                                    J::A(v)
                                }
                                _ => self.decode(&m2, addend, *inner, depth + 1),
                            }
                        } else {
                            o(vec![("static", s(self.path(did)))])
                        }
                    }
                    Some(GlobalAlloc::Function { instance }) => o(vec![("fn", s(self.path(instance.def_id())))]),
                    _ => o(vec![("undecoded", s("alloc"))]),
                }
            }
            ty::Array(elem, len) => {
                let n = len.try_to_target_usize(tcx).unwrap_or(0);
                let el = match tcx.layout_of(env.as_query_input(*elem)) {
                    Ok(l) => l.size.bytes(),
                    Err(_) => return o(vec![("undecoded", s("layout"))]),
                };
                let mut v = vec![];
                for i in 0..n {
                    v.push(self.decode(mem, off + i * el, *elem, depth + 1));
                }
                J::A(v)
            }
            ty::Tuple(list) => {
                let mut v = vec![];
                for (i, t) in list.iter().enumerate() {
                    let fo = layout.fields.offset(i).bytes();
                    v.push(self.decode(mem, off + fo, t, depth + 1));
                }
                o(vec![("tuple", J::A(v))])
            }
            ty::Adt(def, args) => {
                let cx = LayoutCx::new(tcx, env);
                let vidx: VariantIdx = if def.is_enum() {
                    match &layout.variants {
                        Variants::Single { index } => *index,
                        Variants::Empty => return o(vec![("undecoded", s("empty"))]),
                        Variants::Multiple { tag, tag_encoding, tag_field, variants } => {
                            let toff = off + layout.fields.offset(tag_field.as_usize()).bytes();
                            let tsize = tag.size(&tcx).bytes();
                            let is_ptr = mem.ptrs.contains_key(&toff);
                            let bits = self.read_uint(mem, toff, tsize).unwrap_or(0);
                            let mask: u128 = if tsize >= 16 { u128::MAX } else { (1u128 << (tsize * 8)) - 1 };
                            match tag_encoding {
                                TagEncoding::Direct => {
                                    let mut found = None;
                                    for (vi, d) in def.discriminants(tcx) {
                                        if (d.val & mask) == bits {
                                            found = Some(vi);
                                        }
                                    }
                                    match found {
                                        Some(v) => v,
                                        None => return o(vec![("undecoded", s("tag"))]),
                                    }
                                }
                                TagEncoding::Niche { untagged_variant, niche_variants, niche_start } => {
                                    if is_ptr {
                                        *untagged_variant
                                    } else {
                                        let vs = niche_variants.start().as_u32() as u128;
                                        let ve = niche_variants.end().as_u32() as u128;
                                        let rel = bits.wrapping_sub(*niche_start) & mask;
                                        if rel <= ve - vs {
                                            VariantIdx::from_u32((vs + rel) as u32)
                                        } else {
                                            *untagged_variant
                                        }
                                    }
                                }
                            }
                        }
                    }
                } else {
                    VariantIdx::from_u32(0)
                };
                if def.is_union() {
                    return o(vec![("undecoded", s("union"))]);
                }
                let vl = if def.is_enum() { layout.for_variant(&cx, vidx) } else { layout };
                let vdef = def.variant(vidx);
                let mut fields = vec![];
                for (i, f) in vdef.fields.iter().enumerate() {
                    let fty = f.ty(tcx, args);
                    let fty = tcx.normalize_erasing_regions(env, ty::Unnormalized::new_wip(fty));
                    let fo = vl.fields.offset(i).bytes();
                    fields.push((f.name.as_str().to_string(), self.decode(mem, off + fo, fty, depth + 1)));
                }
                let mut v = vec![("adt", s(self.path(def.did())))];
                if def.is_enum() {
                    v.push(("variant", s(vdef.name.as_str())));
                    v.push(("vidx", J::I(vidx.as_u32() as i128)));
                }
                v.push(("fields", J::O(fields)));
                o(v)
            }
            ty::FnDef(did, _) => o(vec![("fn", s(self.path(*did)))]),
            _ => o(vec![("undecoded", s(self.ty_str(ty)))]),
        }
    }

    fn const_value(&mut self, cv: ConstValue, ty: Ty<'tcx>) -> J {
        let tcx = self.tcx;
        self.decode_budget = 200_000;
        let env = TypingEnv::fully_monomorphized();
        match cv {
            ConstValue::Scalar(Scalar::Int(si)) => {
                let size = si.size().bytes();
                let bits = si.to_bits(si.size());
                match ty.kind() {
                    ty::Int(_) | ty::Uint(_) | ty::Bool | ty::Char => self.scalar_int_json(bits, size, ty),
                    _ => {
                        let mut bytes = vec![];
                        for i in 0..size {
                            bytes.push(((bits >> (8 * i)) & 0xff) as u8);
                        }
                        let mem = Mem { bytes, ptrs: BTreeMap::new(), _m: std::marker::PhantomData };
                        self.decode(&mem, 0, ty, 0)
                    }
                }
            }
            ConstValue::Scalar(Scalar::Ptr(ptr, _)) => {
                let (prov, offs) = ptr.into_raw_parts();
                let aid = prov.alloc_id();
                let mut bytes = vec![];
                let a = offs.bytes();
                for i in 0..8 {
                    bytes.push(((a >> (8 * i)) & 0xff) as u8);
                }
                let mut ptrs = BTreeMap::new();
                ptrs.insert(0u64, aid);
                let mem = Mem { bytes, ptrs, _m: std::marker::PhantomData };
                self.decode(&mem, 0, ty, 0)
            }
            ConstValue::ZeroSized => match ty.kind() {
                ty::FnDef(did, _) => o(vec![("fn", s(self.path(*did)))]),
                _ => {
                    let mem = Mem { bytes: vec![], ptrs: BTreeMap::new(), _m: std::marker::PhantomData };
                    self.decode(&mem, 0, ty, 0)
                }
            },
            ConstValue::Slice { alloc_id, meta } => {
                let mut bytes = vec![0u8; 16];
                for i in 0..8 {
                    bytes[8 + i] = ((meta >> (8 * i)) & 0xff) as u8;
                }
                let mut ptrs = BTreeMap::new();
                ptrs.insert(0u64, alloc_id);
                let mem = Mem { bytes, ptrs, _m: std::marker::PhantomData };
                self.decode(&mem, 0, ty, 0)
            }
            ConstValue::Indirect { alloc_id, offset } => match self.mem_of(alloc_id) {
                Some(m) => self.decode(&m, offset.bytes(), ty, 0),
                None => o(vec![("undecoded", s("indirect"))]),
            },
        }
    }

    fn constant(&mut self, c: &mir::ConstOperand<'tcx>) -> J {
        let tcx = self.tcx;
        let ty = c.const_.ty();
        let mut v: Vec<(&str, J)> = vec![("k", s("const")), ("ty", J::I(self.ty_id(ty) as i128))];
        if let ty::FnDef(did, args) = ty.kind() {
            v.push(("fn", s(self.path(*did))));
            return o(v);
        }
        match c.const_ {
            Const::Unevaluated(uv, _) => {
                v.push(("def", s(self.path(uv.def))));
                if let Some(p) = uv.promoted {
                    v.push(("promoted", J::I(p.as_usize() as i128)));
                }
            }
            _ => {}
        }
        // evaluate when possible (monomorphic consts only)
        let env = self.cur_env;
        let evaluated = std::panic::catch_unwind(std::panic::AssertUnwindSafe(|| c.const_.eval(tcx, env, c.span)));
        if let Ok(Ok(cv)) = evaluated {
            let is_generic = ty.has_non_region_param();
            if !is_generic {
                let val = self.const_value(cv, ty);
                v.push(("v", val));
            }
        }
        o(v)
    }

    fn operand(&mut self, op: &Operand<'tcx>) -> J {
        match op {
            Operand::Copy(p) => o(vec![("k", s("copy")), ("pl", self.place(p))]),
            Operand::Move(p) => o(vec![("k", s("move")), ("pl", self.place(p))]),
            Operand::Constant(c) => self.constant(c),
            other => o(vec![("k", s("other")), ("dbg", s(format!("{:?}", other)))]),
        }
    }

    fn rvalue(&mut self, rv: &Rvalue<'tcx>) -> J {
        match rv {
            Rvalue::Use(op, ..) => o(vec![("k", s("use")), ("x", self.operand(op))]),
            Rvalue::Repeat(op, n) => o(vec![
                ("k", s("repeat")),
                ("x", self.operand(op)),
                ("n", match n.try_to_target_usize(self.tcx) { Some(n) => J::I(n as i128), None => J::Null }),
            ]),
            Rvalue::Ref(_, bk, p) => o(vec![
                ("k", s("ref")),
                ("mut", J::B(matches!(bk, mir::BorrowKind::Mut { .. }))),
                ("pl", self.place(p)),
            ]),
            Rvalue::RawPtr(kind, p) => o(vec![("k", s("rawptr")), ("pl", self.place(p))]),
            Rvalue::ThreadLocalRef(did) => o(vec![("k", s("tlref")), ("def", s(self.path(*did)))]),
            Rvalue::Cast(kind, op, ty) => o(vec![
                ("k", s("cast")),
                ("ck", s(format!("{:?}", kind))),
                ("x", self.operand(op)),
                ("to", J::I(self.ty_id(*ty) as i128)),
            ]),
            Rvalue::BinaryOp(op, b) => {
                let (l, r) = &**b;
                o(vec![("k", s("bin")), ("op", s(format!("{:?}", op))), ("l", self.operand(l)), ("r", self.operand(r))])
            }
            Rvalue::UnaryOp(op, x) => o(vec![("k", s("un")), ("op", s(format!("{:?}", op))), ("x", self.operand(x))]),
            Rvalue::Discriminant(p) => o(vec![("k", s("discr")), ("pl", self.place(p))]),
            Rvalue::Aggregate(kind, fields) => {
                let mut v: Vec<(&str, J)> = vec![("k", s("agg"))];
                match &**kind {
                    AggregateKind::Array(t) => v.push(("ak", s("array"))),
                    AggregateKind::Tuple => v.push(("ak", s("tuple"))),
                    AggregateKind::Adt(did, vidx, args, _, active) => {
                        v.push(("ak", s("adt")));
                        v.push(("adt", s(self.path(*did))));
                        let adt = self.tcx.adt_def(*did);
                        v.push(("vidx", J::I(vidx.as_usize() as i128)));
                        v.push(("variant", s(adt.variant(*vidx).name.as_str())));
                    }
                    AggregateKind::Closure(did, _) => {
                        v.push(("ak", s("closure")));
                        v.push(("def", s(self.path(*did))));
                    }
                    other => v.push(("ak", s(format!("{:?}", other)))),
                }
                let f: Vec<J> = fields.iter().map(|x| self.operand(x)).collect();
                v.push(("fields", J::A(f)));
                o(v)
            }
            Rvalue::CopyForDeref(p) => o(vec![("k", s("use")), ("x", o(vec![("k", s("copy")), ("pl", self.place(p))]))]),
            other => o(vec![("k", s("other")), ("dbg", s(format!("{:?}", other)))]),
        }
    }

    fn callee(&mut self, func: &Operand<'tcx>, caller: DefId) -> J {
        let tcx = self.tcx;
        if let Operand::Constant(c) = func {
            if let ty::FnDef(did, args) = c.const_.ty().kind() {
                let mut v: Vec<(&str, J)> = vec![("def", s(self.path(*did)))];
                let ga: Vec<J> = args.types().map(|t| s(self.ty_str(t))).collect();
                v.push(("gargs", J::A(ga)));
                let gt: Vec<J> = args.types().map(|t| J::I(self.ty_id(t) as i128)).collect();
                v.push(("gtys", J::A(gt)));
                if let Some(tr) = tcx.trait_of_assoc(*did) {
                    v.push(("trait", s(self.path(tr))));
                }
                v.push(("krate", s(tcx.crate_name(did.krate).as_str())));
                let env = self.cur_env;
                let res = std::panic::catch_unwind(std::panic::AssertUnwindSafe(|| Instance::try_resolve(tcx, env, *did, args)));
                match res {
                    Ok(Ok(Some(inst))) => {
                        v.push(("resolved", s(self.path(inst.def_id()))));
                        v.push(("rkrate", s(tcx.crate_name(inst.def_id().krate).as_str())));
                        let kind = match inst.def {
                            ty::InstanceKind::Item(_) => "item".to_string(),
                            other => format!("{:?}", other).split('(').next().unwrap_or("?").to_string(),
                        };
                        v.push(("ikind", s(kind)));
                    }
                    Ok(Ok(None)) => v.push(("resolved", J::Null)),
                    _ => v.push(("resolved", J::Null)),
                }
                return o(v);
            }
        }
        o(vec![("indirect", self.operand(func))])
    }

    fn body(&mut self, body: &Body<'tcx>, owner: DefId) -> J {
        let tcx = self.tcx;
        let mut locals = vec![];
        for (l, d) in body.local_decls.iter_enumerated() {
            locals.push(J::I(self.ty_id(d.ty) as i128));
        }
        let mut names: Vec<(String, J)> = vec![];
        for vdi in &body.var_debug_info {
            if let mir::VarDebugInfoContents::Place(p) = &vdi.value {
                names.push((vdi.name.as_str().to_string(), self.place(p)));
            }
        }
        let mut blocks = vec![];
        for (bb, data) in body.basic_blocks.iter_enumerated() {
            let mut stmts = vec![];
            for st in &data.statements {
                let (file, line) = self.loc(st.source_info.span);
                let exp = st.source_info.span.from_expansion();
                let j = match &st.kind {
                    StatementKind::Assign(b) => {
                        let (pl, rv) = &**b;
                        Some(o(vec![("k", s("assign")), ("pl", self.place(pl)), ("rv", self.rvalue(rv))]))
                    }
                    StatementKind::SetDiscriminant { place, variant_index } => Some(o(vec![
                        ("k", s("setdiscr")),
                        ("pl", self.place(place)),
                        ("vidx", J::I(variant_index.as_usize() as i128)),
                    ])),
                    StatementKind::Intrinsic(i) => Some(o(vec![("k", s("intrinsic")), ("dbg", s(format!("{:?}", i)))])),
                    _ => None,
                };
                if let Some(J::O(mut fields)) = j {
                    fields.push(("ln".to_string(), J::I(line as i128)));
                    if exp {
                        fields.push(("x".to_string(), J::B(true)));
                    }
                    stmts.push(J::O(fields));
                }
            }
            let term = data.terminator();
            let (file, line) = self.loc(term.source_info.span);
            let exp = term.source_info.span.from_expansion();
            let mut t: Vec<(&str, J)> = match &term.kind {
                TerminatorKind::Goto { target } => vec![("k", s("goto")), ("target", J::I(target.as_usize() as i128))],
                TerminatorKind::SwitchInt { discr, targets } => {
                    let mut ts = vec![];
                    for (val, bb) in targets.iter() {
                        ts.push(J::A(vec![J::I(val as i128), J::I(bb.as_usize() as i128)]));
                    }
                    let dty = discr.ty(&body.local_decls, tcx);
                    vec![
                        ("k", s("switch")),
                        ("discr", self.operand(discr)),
                        ("dty", J::I(self.ty_id(dty) as i128)),
                        ("targets", J::A(ts)),
                        ("otherwise", J::I(targets.otherwise().as_usize() as i128)),
                    ]
                }
                TerminatorKind::Return => vec![("k", s("return"))],
                TerminatorKind::Unreachable => vec![("k", s("unreachable"))],
                TerminatorKind::UnwindResume => vec![("k", s("resume"))],
                TerminatorKind::UnwindTerminate(_) => vec![("k", s("terminate"))],
                TerminatorKind::Drop { place, target, .. } => {
                    vec![("k", s("drop")), ("pl", self.place(place)), ("target", J::I(target.as_usize() as i128))]
                }
                TerminatorKind::Call { func, args, destination, target, .. } => {
                    let a: Vec<J> = args.iter().map(|x| self.operand(&x.node)).collect();
                    vec![
                        ("k", s("call")),
                        ("callee", self.callee(func, owner)),
                        ("args", J::A(a)),
                        ("dest", self.place(destination)),
                        ("target", match target { Some(t) => J::I(t.as_usize() as i128), None => J::Null }),
                    ]
                }
                TerminatorKind::Assert { cond, expected, msg, target, .. } => {
                    let mut v = vec![
                        ("k", s("assert")),
                        ("cond", self.operand(cond)),
                        ("expected", J::B(*expected)),
                        ("target", J::I(target.as_usize() as i128)),
                    ];
                    use mir::AssertKind::*;
                    match &**msg {
                        Overflow(op, l, r) => {
                            v.push(("ak", s("Overflow")));
                            v.push(("op", s(format!("{:?}", op))));
                            v.push(("l", self.operand(l)));
                            v.push(("r", self.operand(r)));
                        }
                        OverflowNeg(x) => {
                            v.push(("ak", s("OverflowNeg")));
                            v.push(("l", self.operand(x)));
                        }
                        DivisionByZero(x) => {
                            v.push(("ak", s("DivisionByZero")));
                            v.push(("l", self.operand(x)));
                        }
                        RemainderByZero(x) => {
                            v.push(("ak", s("RemainderByZero")));
                            v.push(("l", self.operand(x)));
                        }
                        BoundsCheck { len, index } => {
                            v.push(("ak", s("BoundsCheck")));
                            v.push(("len", self.operand(len)));
                            v.push(("index", self.operand(index)));
                        }
                        other => {
                            let d = format!("{:?}", other);
                            v.push(("ak", s(d.split(|c: char| !c.is_alphanumeric()).next().unwrap_or("?"))));
                        }
                    }
                    v
                }
                TerminatorKind::FalseEdge { real_target, .. } => vec![("k", s("goto")), ("target", J::I(real_target.as_usize() as i128))],
                TerminatorKind::FalseUnwind { real_target, .. } => vec![("k", s("goto")), ("target", J::I(real_target.as_usize() as i128))],
                other => vec![("k", s("other")), ("dbg", s(format!("{:?}", other)))],
            };
            t.push(("ln", J::I(line as i128)));
            if exp {
                t.push(("x", J::B(true)));
            }
            let mut bv = vec![("s", J::A(stmts)), ("t", o(t))];
            if data.is_cleanup {
                bv.push(("cleanup", J::B(true)));
            }
            blocks.push(o(bv));
        }
        o(vec![
            ("argc", J::I(body.arg_count as i128)),
            ("locals", J::A(locals)),
            ("names", J::O(names)),
            ("blocks", J::A(blocks)),
        ])
    }

    fn doc_of(&self, did: DefId) -> String {
        let mut out = String::new();
        for a in self.tcx.get_all_attrs(did) {
            if let Some((sym, _)) = a.doc_str_and_fragment_kind() {
                out.push_str(sym.as_str());
                out.push('\n');
            }
        }
        out
    }

    fn run(&mut self) -> J {
        let tcx = self.tcx;
        let ev = tcx.effective_visibilities(());
        let mut fns: Vec<(String, J)> = vec![];
        let mut seen: HashMap<String, usize> = HashMap::new();
        for ldid in tcx.hir_body_owners() {
            let did = ldid.to_def_id();
            let kind = tcx.def_kind(did);
            let is_fn = matches!(kind, DefKind::Fn | DefKind::AssocFn | DefKind::Closure);
            let is_const = matches!(
                kind,
                DefKind::Const { .. } | DefKind::AssocConst { .. } | DefKind::Static { .. } | DefKind::AnonConst | DefKind::InlineConst
            );
            if !is_fn && !is_const {
                continue;
            }
            self.cur_env = TypingEnv::post_analysis(tcx, did);
            self.cur_def = Some(did);
            let mut name = self.path(did);
            let n = seen.entry(name.clone()).or_insert(0);
            *n += 1;
            if *n > 1 {
                name = format!("{}#{}", name, n);
            }
            let mut v: Vec<(&str, J)> = vec![("kind", s(format!("{:?}", kind).split(|c: char| !c.is_alphanumeric()).next().unwrap_or("?")))];
            let (file, line) = self.loc(tcx.def_span(did));
            v.push(("file", s(file)));
            v.push(("line", J::I(line as i128)));
            if is_fn && !matches!(kind, DefKind::Closure) {
                v.push(("reachable", J::B(ev.is_reachable(ldid))));
                v.push(("pub", J::B(tcx.visibility(did).is_public())));
                v.push(("deprecated", J::B(tcx.lookup_deprecation(did).is_some())));
                let doc = self.doc_of(did);
                v.push(("doc_panics", J::B(doc.contains("# Panics"))));
                v.push(("has_doc", J::B(!doc.is_empty())));
                v.push(("doc_hidden", J::B(tcx.is_doc_hidden(did))));
                let sig = tcx.fn_sig(did).instantiate_identity().skip_norm_wip().skip_binder();
                let ret = sig.output();
                v.push(("ret", J::I(self.ty_id(ret) as i128)));
                let ins: Vec<J> = sig.inputs().iter().map(|t| J::I(self.ty_id(*t) as i128)).collect();
                v.push(("inputs", J::A(ins)));
            }
            if matches!(kind, DefKind::AssocFn | DefKind::AssocConst { .. }) {
                if let Some(impl_did) = tcx.impl_of_assoc(did) {
                    v.push(("impl", s(self.path(impl_did))));
                    let selfty = tcx.type_of(impl_did).instantiate_identity().skip_norm_wip();
                    v.push(("self_ty", J::I(self.ty_id(selfty) as i128)));
                    if let Some(tr) = tcx.impl_opt_trait_ref(impl_did) {
                        let tr = tr.instantiate_identity().skip_norm_wip();
                        v.push(("trait", s(self.path(tr.def_id))));
                        v.push(("trait_ref", s(with_no_trimmed_paths!(tr.to_string()))));
                        v.push(("derived", J::B(tcx.is_automatically_derived(impl_did))));
                        v.push(("impl_deprecated", J::B(tcx.lookup_deprecation(impl_did).is_some())));
                    }
                    if let Some(ti) = tcx.trait_item_of(did) {
                        v.push(("trait_item", s(self.path(ti))));
                    }
                } else if let Some(tr) = tcx.trait_of_assoc(did) {
                    v.push(("in_trait", s(self.path(tr))));
                }
            }
            if matches!(kind, DefKind::Closure) {
                let parent = tcx.typeck_root_def_id(did);
                v.push(("parent", s(self.path(parent))));
            }
            // MIR
            let body: Option<&Body<'tcx>> = if is_fn {
                Some(tcx.optimized_mir(did))
            } else {
                Some(tcx.mir_for_ctfe(did))
            };
            if let Some(b) = body {
                v.push(("mir", self.body(b, did)));
            }
            let proms = tcx.promoted_mir(did);
            let mut pv = vec![];
            for p in proms.iter() {
                pv.push(self.body(p, did));
            }
            if !pv.is_empty() {
                v.push(("promoted", J::A(pv)));
            }
            // evaluated value of monomorphic consts / statics
            if matches!(kind, DefKind::Const { .. } | DefKind::AssocConst { .. } | DefKind::Static { .. }) {
                let ty = tcx.type_of(did).instantiate_identity().skip_norm_wip();
                v.push(("ty", J::I(self.ty_id(ty) as i128)));
                if !ty.has_non_region_param() && tcx.generics_of(did).count() == 0 {
                    let r = std::panic::catch_unwind(std::panic::AssertUnwindSafe(|| {
                        if matches!(kind, DefKind::Static { .. }) {
                            tcx.eval_static_initializer(did).ok().map(|a| {
                                let a = a.inner();
                                let bytes = a.inspect_with_uninit_and_ptr_outside_interpreter(0..a.len()).to_vec();
                                let mut ptrs = BTreeMap::new();
                                for (off, prov) in a.provenance().ptrs().iter() {
                                    ptrs.insert(off.bytes(), prov.alloc_id());
                                }
                                Err(Mem { bytes, ptrs, _m: std::marker::PhantomData })
                            })
                        } else {
                            tcx.const_eval_poly(did).ok().map(Ok)
                        }
                    }));
                    match r {
                        Ok(Some(Ok(cv))) => {
                            let val = self.const_value(cv, ty);
                            v.push(("value", val));
                        }
                        Ok(Some(Err(mem))) => {
                            self.decode_budget = 200_000;
                            let val = self.decode(&mem, 0, ty, 0);
                            v.push(("value", val));
                        }
                        _ => {}
                    }
                }
            }
            fns.push((name, o(v)));
        }

        // ADTs
        let mut adts: Vec<(String, J)> = vec![];
        for id in tcx.hir_free_items() {
            let did = id.owner_id.to_def_id();
            let kind = tcx.def_kind(did);
            if !matches!(kind, DefKind::Struct | DefKind::Enum | DefKind::Union) {
                continue;
            }
            let def = tcx.adt_def(did);
            let mut variants = vec![];
            for (vi, vd) in def.variants().iter_enumerated() {
                let mut fields = vec![];
                for f in vd.fields.iter() {
                    let fty = tcx.type_of(f.did).instantiate_identity().skip_norm_wip();
                    fields.push(o(vec![
                        ("name", s(f.name.as_str())),
                        ("ty", J::I(self.ty_id(fty) as i128)),
                        ("pub", J::B(f.vis.is_public())),
                        ("vis", s(format!("{:?}", f.vis))),
                    ]));
                }
                let discr = if def.is_enum() { J::I(def.discriminant_for_variant(tcx, vi).val as i128) } else { J::Null };
                variants.push(o(vec![("name", s(vd.name.as_str())), ("discr", discr), ("fields", J::A(fields))]));
            }
            let (file, line) = self.loc(tcx.def_span(did));
            adts.push((
                self.path(did),
                o(vec![
                    ("kind", s(format!("{:?}", kind))),
                    ("pub", J::B(tcx.visibility(did).is_public())),
                    ("reachable", J::B(ev.is_reachable(id.owner_id.def_id))),
                    ("variants", J::A(variants)),
                    ("file", s(file)),
                    ("line", J::I(line as i128)),
                ]),
            ));
        }

        // impls
        let mut impls = vec![];
        for id in tcx.hir_free_items() {
            let did = id.owner_id.to_def_id();
            if !matches!(tcx.def_kind(did), DefKind::Impl { .. }) {
                continue;
            }
            let selfty = tcx.type_of(did).instantiate_identity().skip_norm_wip();
            let mut v: Vec<(&str, J)> = vec![("path", s(self.path(did))), ("self_ty", J::I(self.ty_id(selfty) as i128))];
            if let Some(tr) = tcx.impl_opt_trait_ref(did) {
                let tr = tr.instantiate_identity().skip_norm_wip();
                v.push(("trait", s(self.path(tr.def_id))));
                v.push(("trait_ref", s(with_no_trimmed_paths!(tr.to_string()))));
                v.push(("trait_krate", s(tcx.crate_name(tr.def_id.krate).as_str())));
            }
            v.push(("derived", J::B(tcx.is_automatically_derived(did))));
            let mut items = vec![];
            for it in tcx.associated_items(did).in_definition_order() {
                let mut iv: Vec<(&str, J)> = vec![("name", s(it.name().as_str())), ("path", s(self.path(it.def_id)))];
                if let Some(ti) = tcx.trait_item_of(it.def_id) {
                    iv.push(("trait_item", s(self.path(ti))));
                }
                items.push(o(iv));
            }
            v.push(("items", J::A(items)));
            let (file, line) = self.loc(tcx.def_span(did));
            v.push(("file", s(file)));
            v.push(("line", J::I(line as i128)));
            impls.push(o(v));
        }

        // traits: which methods have default bodies
        let mut traits: Vec<(String, J)> = vec![];
        for id in tcx.hir_free_items() {
            let did = id.owner_id.to_def_id();
            if !matches!(tcx.def_kind(did), DefKind::Trait) {
                continue;
            }
            let mut items = vec![];
            for it in tcx.associated_items(did).in_definition_order() {
                items.push(o(vec![
                    ("name", s(it.name().as_str())),
                    ("path", s(self.path(it.def_id))),
                    ("has_default", J::B(it.defaultness(tcx).has_value())),
                ]));
            }
            traits.push((self.path(did), J::A(items)));
        }

        let tys = std::mem::take(&mut self.tys);
        o(vec![
            ("crate", s(tcx.crate_name(LOCAL_CRATE).as_str())),
            ("fns", J::O(fns)),
            ("adts", J::O(adts)),
            ("impls", J::A(impls)),
            ("traits", J::O(traits)),
            ("tys", J::A(tys)),
        ])
    }
}
