"""Independent proleptic-Gregorian calendar oracle (written from the calendar rules, not from chrono).

Astronomical year numbering (year 0 = 1 BCE). Weekdays are numbered Mon=0 … Sun=6.
Self-check: cross-checked against Python's `datetime` for years 1..9999 when run as a script
(and on import for a sample), and by the 400-year periodicity of the calendar elsewhere.
"""
import datetime

MONTH_DAYS = [31, 28, 31, 30, 31, 30, 31, 31, 30, 31, 30, 31]


def leap(y):
    return y % 4 == 0 and (y % 100 != 0 or y % 400 == 0)


def days_in_month(y, m):
    return 29 if (m == 2 and leap(y)) else MONTH_DAYS[m - 1]


def days_in_year(y):
    return 366 if leap(y) else 365


def days_before_year(y):
    """number of days from 0001-01-01 (day 1) to the last day of year y-1; day number of y-01-01 minus 1"""
    y1 = y - 1
    return y1 * 365 + y1 // 4 - y1 // 100 + y1 // 400


def ordinal(y, m, d):
    return sum(days_in_month(y, i) for i in range(1, m)) + d


def day_number(y, m, d):
    """days since 0000-12-31 (so 0001-01-01 = 1), the 'num_days_from_ce' convention"""
    return days_before_year(y) + ordinal(y, m, d)


def weekday(y, m, d):
    # 0001-01-01 is a Monday in the proleptic Gregorian calendar
    return (day_number(y, m, d) - 1) % 7


def from_ordinal(y, o):
    m = 1
    while o > days_in_month(y, m):
        o -= days_in_month(y, m)
        m += 1
    return m, o


def iso_weeks_in_year(y):
    """53 iff 1 January is a Thursday, or a Wednesday in a leap year"""
    w = weekday(y, 1, 1)
    return 53 if (w == 3 or (w == 2 and leap(y))) else 52


def iso_week(y, m, d):
    """(iso_year, week, weekday_mon1) : week 1 contains 4 January"""
    o = ordinal(y, m, d)
    wd = weekday(y, m, d)
    w = (o - (wd + 1) + 10) // 7
    if w < 1:
        return y - 1, iso_weeks_in_year(y - 1), wd + 1
    if w > iso_weeks_in_year(y):
        return y + 1, 1, wd + 1
    return y, w, wd + 1


def leap_days_before(ymod):
    """leap days in years [0, ymod) of a 400-year cycle starting at a year divisible by 400"""
    return sum(1 for i in range(ymod) if leap(i))


def selfcheck(full=False):
    years = range(1, 10000) if full else list(range(1, 10000, 37)) + [1, 4, 100, 400, 1900, 2000, 2024, 9999]
    for y in years:
        assert leap(y) == (datetime.date(y, 12, 31).timetuple().tm_yday == 366)
        for (m, d) in ((1, 1), (2, 28), (3, 1), (12, 31), (7, 4)):
            dt = datetime.date(y, m, d)
            assert dt.toordinal() == day_number(y, m, d), (y, m, d)
            assert dt.weekday() == weekday(y, m, d)
            assert tuple(dt.isocalendar()) == iso_week(y, m, d), (y, m, d, tuple(dt.isocalendar()), iso_week(y, m, d))
            assert dt.timetuple().tm_yday == ordinal(y, m, d)
    # 400-year periodicity: 146097 days = 20871 weeks
    assert days_before_year(401) - days_before_year(1) == 146097 and 146097 % 7 == 0
    assert day_number(1970, 1, 1) == 719163
    return True


selfcheck(False)

if __name__ == "__main__":
    selfcheck(True)
    print("calendar oracle self-check ok (years 1..9999 against datetime)")
