"""chrono's documented strftime table (module documentation of format::strftime, default locale), transcribed by hand.
N(x, p) = Item::Numeric(x, p), F(x) = Item::Fixed(x), IF(x) = internal fixed item."""


def N(x, p):
    return ("Numeric", (x,), (p,))


def F(x):
    return ("Fixed", (x,))


def IF(x):
    return ("Fixed", ("Internal", ("InternalFixed", (x,))))


def L(s):
    return ("Literal", s)


def S(s):
    return ("Space", s)


SINGLE = {
    "Y": N("Year", "Zero"), "C": N("YearDiv100", "Zero"), "y": N("YearMod100", "Zero"), "q": N("Quarter", "None"),
    "m": N("Month", "Zero"), "b": F("ShortMonthName"), "h": F("ShortMonthName"), "B": F("LongMonthName"),
    "d": N("Day", "Zero"), "e": N("Day", "Space"), "a": F("ShortWeekdayName"), "A": F("LongWeekdayName"),
    "w": N("NumDaysFromSun", "None"), "u": N("WeekdayFromMon", "None"), "U": N("WeekFromSun", "Zero"), "W": N("WeekFromMon", "Zero"),
    "G": N("IsoYear", "Zero"), "g": N("IsoYearMod100", "Zero"), "V": N("IsoWeek", "Zero"), "j": N("Ordinal", "Zero"),
    "H": N("Hour", "Zero"), "k": N("Hour", "Space"), "I": N("Hour12", "Zero"), "l": N("Hour12", "Space"),
    "P": F("LowerAmPm"), "p": F("UpperAmPm"), "M": N("Minute", "Zero"), "S": N("Second", "Zero"), "f": N("Nanosecond", "Zero"),
    ".f": F("Nanosecond"), ".3f": F("Nanosecond3"), ".6f": F("Nanosecond6"), ".9f": F("Nanosecond9"),
    "3f": IF("Nanosecond3NoDot"), "6f": IF("Nanosecond6NoDot"), "9f": IF("Nanosecond9NoDot"),
    "Z": F("TimezoneName"), "z": F("TimezoneOffset"), ":z": F("TimezoneOffsetColon"), "::z": F("TimezoneOffsetDoubleColon"),
    ":::z": F("TimezoneOffsetTripleColon"), "#z": IF("TimezoneOffsetPermissive"), "+": F("RFC3339"), "s": N("Timestamp", "None"),
    "t": S("\t"), "n": S("\n"), "%": L("%"),
}
# composite specifiers: documented expansion as a sequence of single specifiers / literal text
COMPOSITE = {
    "D": ["m", L("/"), "d", L("/"), "y"], "x": ["m", L("/"), "d", L("/"), "y"],
    "F": ["Y", L("-"), "m", L("-"), "d"], "v": ["e", L("-"), "b", L("-"), "Y"],
    "R": ["H", L(":"), "M"], "T": ["H", L(":"), "M", L(":"), "S"], "X": ["H", L(":"), "M", L(":"), "S"],
    "r": ["I", L(":"), "M", L(":"), "S", S(" "), "p"],
    "c": ["a", S(" "), "b", S(" "), "e", S(" "), "H", L(":"), "M", L(":"), "S", S(" "), "Y"],
}
PADS = {"-": "None", "0": "Zero", "_": "Space"}

# documented width of each numeric item as written (None = not fixed) and whether the written value can be negative / carry a sign
NUMERIC_WRITE = {
    "Year": (4, True), "YearDiv100": (2, True), "YearMod100": (2, False), "IsoYear": (4, True), "IsoYearDiv100": (2, True), "IsoYearMod100": (2, False),
    "Quarter": (1, False), "Month": (2, False), "Day": (2, False), "WeekFromSun": (2, False), "WeekFromMon": (2, False), "IsoWeek": (2, False),
    "NumDaysFromSun": (1, False), "WeekdayFromMon": (1, False), "Ordinal": (3, False), "Hour": (2, False), "Hour12": (2, False), "Minute": (2, False),
    "Second": (2, False), "Nanosecond": (9, False), "Timestamp": (None, True),
}
# accessor the writer must use for each numeric item, and the Parsed setter the reader must use (pairing table A.1)
PAIRING = {
    "Year": (("year",), "set_year"), "YearDiv100": (("div_euclid", "year"), "set_year_div_100"), "YearMod100": (("rem_euclid", "year"), "set_year_mod_100"),
    "IsoYear": (("year", "iso_week"), "set_isoyear"), "IsoYearDiv100": (("div_euclid", "year", "iso_week"), "set_isoyear_div_100"),
    "IsoYearMod100": (("rem_euclid", "year", "iso_week"), "set_isoyear_mod_100"), "Quarter": (("quarter",), "set_quarter"), "Month": (("month",), "set_month"),
    "Day": (("day",), "set_day"), "WeekFromSun": (("weeks_from",), "set_week_from_sun"), "WeekFromMon": (("weeks_from",), "set_week_from_mon"),
    "IsoWeek": (("week", "iso_week"), "set_isoweek"), "NumDaysFromSun": (("num_days_from_sunday", "weekday"), "set_weekday_with_num_days_from_sunday"),
    "WeekdayFromMon": (("number_from_monday", "weekday"), "set_weekday_with_number_from_monday"), "Ordinal": (("ordinal",), "set_ordinal"),
    "Hour": (("hour",), "set_hour"), "Hour12": (("hour12",), "set_hour12"), "Minute": (("minute",), "set_minute"), "Second": (("second", "nanosecond"), "set_second"),
    "Nanosecond": (("nanosecond",), "set_nanosecond"), "Timestamp": (None, "set_timestamp"),
}
